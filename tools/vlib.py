"""Shared machinery for the /verif checks.

A property module (tools/props/cXX.py) supplies case generators, an implementation runner, an
oracle written from the property text, and the rendering of each case as a Coq boolean term
`model(args) = observed`.  This file does everything else: building/compiling the Coq side,
running Print Assumptions, sharding the correspondence cases through coqc, matching known
findings, writing evidence and replay files, and printing the verdict lines.
"""
from __future__ import annotations
import os, sys, json, time, random, signal, subprocess, hashlib, re, traceback, concurrent.futures, shutil

VERIF = os.path.dirname(os.path.dirname(os.path.abspath(__file__)))
REPO = os.environ.get('VERIF_REPO', '/repo')
COQ = os.path.join(VERIF, 'coq')
BUILD = os.path.join(VERIF, 'build')
EVID = os.environ.get('VERIF_EVIDENCE_DIR') or os.path.join(VERIF, 'evidence')      # the seeded-change runner points these elsewhere
REPLAYS = os.environ.get('VERIF_REPLAYS_DIR') or os.path.join(VERIF, 'replays')
NPROC = max(2, min(16, os.cpu_count() or 4))

# --------------------------------------------------------------------------------------------
# calling the implementation
# --------------------------------------------------------------------------------------------
class Hang(Exception):
    pass

def _alarm(signum, frame):
    raise Hang()

def with_alarm(fn, secs=5):
    """Run fn() under a watchdog; a call that does not return is the outcome Hang.
    The budget is CPU time of this process (ITIMER_PROF), so that a loaded machine - other checks, coqc - cannot turn a slow call into a "hang"
    (that did happen: a false alarm on a harmless rewrite while eight checks ran side by side); a wall-clock backstop of 30x the budget catches a
    call that blocks without using the CPU."""
    old_p = signal.signal(signal.SIGPROF, _alarm)
    old_r = signal.signal(signal.SIGALRM, _alarm)
    rem_p = signal.setitimer(signal.ITIMER_PROF, secs)[0]            # what was left of an enclosing watchdog (nested use): put back afterwards
    rem_r = signal.setitimer(signal.ITIMER_REAL, 30 * secs)[0]
    try:
        return fn()
    finally:
        signal.setitimer(signal.ITIMER_PROF, rem_p)
        signal.setitimer(signal.ITIMER_REAL, rem_r)
        signal.signal(signal.SIGPROF, old_p)
        signal.signal(signal.SIGALRM, old_r)

def exn_name(e: BaseException) -> str:
    """Map a raised exception to the model's exn enum (first matching class, fixed order)."""
    import bitstring
    if isinstance(e, Hang): return 'OutOfFuel'
    if isinstance(e, bitstring.ReadError): return 'ReadError'
    if isinstance(e, bitstring.ByteAlignError): return 'ByteAlignError'
    if isinstance(e, bitstring.Error): return 'BsError'
    for cls, name in ((IndexError, 'IndexError'), (OverflowError, 'OverflowError'), (ZeroDivisionError, 'ZeroDivisionError'),
                      (ValueError, 'ValueError'), (TypeError, 'TypeError'),
                      (AttributeError, 'AttributeError'), (AssertionError, 'AssertionError'), (KeyError, 'KeyError'),
                      (StopIteration, 'StopIteration'), (NotImplementedError, 'NotImplementedError')):
        if isinstance(e, cls): return name
    return 'Other:' + type(e).__name__

COQ_EXNS = {'IndexError', 'ReadError', 'ValueError', 'TypeError', 'BsError', 'ByteAlignError', 'OverflowError',
            'AttributeError', 'AssertionError', 'KeyError', 'StopIteration', 'NotImplementedError',
            'ZeroDivisionError', 'OutOfFuel'}

def attempt(fn, secs=5):
    """('ok', value) or ('err', exn-name)."""
    try:
        return ('ok', with_alarm(fn, secs))
    except BaseException as e:  # noqa
        if isinstance(e, (KeyboardInterrupt, SystemExit)): raise
        return ('err', exn_name(e))

def reset_options():
    import bitstring
    bitstring.options.lsb0 = False
    bitstring.options.bytealigned = False
    bitstring.options.mxfp_overflow = 'saturate'

def clear_caches():
    """Clear every functools cache found on the package's modules (cold start for C09 et al)."""
    import bitstring, functools, types
    n = 0
    for name, mod in list(sys.modules.items()):
        if not name.startswith('bitstring'): continue
        for objname in dir(mod):
            try: obj = getattr(mod, objname)
            except Exception: continue
            objs = [obj]
            if isinstance(obj, type):
                for a in list(vars(obj).values()):
                    objs.append(getattr(a, '__func__', a))
            for o in objs:
                cc = getattr(o, 'cache_clear', None)
                if callable(cc):
                    try: cc(); n += 1
                    except Exception: pass
    # lazily built class-level tables (e.g. Array._largest_values): slots that were None the first time we looked are reset to None
    global _LAZY_SLOTS
    if _LAZY_SLOTS is None:
        _LAZY_SLOTS = []
        for name, mod in list(sys.modules.items()):
            if not name.startswith('bitstring'): continue
            for objname, obj in list(vars(mod).items()):
                if isinstance(obj, type) and getattr(obj, '__module__', '').startswith('bitstring'):
                    for a, v in list(vars(obj).items()):
                        if v is None and not a.startswith('__'): _LAZY_SLOTS.append((obj, a))
    else:
        for obj, a in _LAZY_SLOTS:
            try:
                if getattr(obj, a) is not None: setattr(obj, a, None); n += 1
            except Exception: pass
    return n

_LAZY_SLOTS = None

# --------------------------------------------------------------------------------------------
# rendering values as Coq terms
# --------------------------------------------------------------------------------------------
def cz(n: int) -> str:
    return f'({n})' if n < 0 else f'{n}'

def cbool(b) -> str:
    return 'true' if b else 'false'

def cbits(s: str) -> str:
    assert set(s) <= {'0', '1'}, s
    return f'(of01 "{s}")'

def copt(x, f) -> str:
    return 'None' if x is None else f'(Some {f(x)})'

def clist(xs, f) -> str:
    return '[' + '; '.join(f(x) for x in xs) + ']'

def cpair(a, b) -> str:
    return f'({a}, {b})'

def cres(r, f) -> str:
    """r is ('ok', v) or ('err', name)."""
    if r[0] == 'ok':
        return f'(Ok {f(r[1])})'
    name = r[1]
    if name not in COQ_EXNS:
        name = 'OutOfFuel' if name == 'Hang' else 'AssertionError'   # an exception class the model has no name for never matches Ok-paths
        return f'(Err {name})'
    return f'(Err {name})'

def cslice(a, b, c) -> str:
    return f'(mkslice {copt(a, cz)} {copt(b, cz)} {copt(c, cz)})'

def cstr(s: str) -> str:
    return '"' + s.replace('"', '""') + '"%string'

# --------------------------------------------------------------------------------------------
# Coq side
# --------------------------------------------------------------------------------------------
def run(cmd, cwd=None, timeout=900, env=None):
    p = subprocess.run(cmd, cwd=cwd, timeout=timeout, capture_output=True, text=True, env=env)
    return p.returncode, p.stdout, p.stderr

def ensure_static_build(log):
    """make the static theories (.vo) — a no-op when up to date; never -vos."""
    t = time.time()
    if not os.path.exists(os.path.join(COQ, 'Makefile')):
        rc, out, err = run(['coq_makefile', '-f', '_CoqProject', '-o', 'Makefile'], cwd=COQ)
        if rc: raise RuntimeError('coq_makefile failed: ' + err)
    rc, out, err = run(['make', f'-j{NPROC}'], cwd=COQ, timeout=3000)
    log['static_build_s'] = round(time.time() - t, 1)
    if rc:
        log['static_build_error'] = (out + err)[-3000:]
        return False
    return True

def coqc(path, extra_q=(), timeout=600, cwd=None):
    args = ['coqc', '-Q', COQ, 'BS']
    for d, n in extra_q:
        args += ['-Q', d, n]
    args.append(path)
    try:
        rc, out, err = run(args, cwd=cwd or os.path.dirname(path), timeout=timeout)
    except subprocess.TimeoutExpired:
        return 124, '', 'timeout'
    return rc, out, err

def check_props_file(relpath, allowed_axioms=(), extra_q=()):
    """Re-compile a Props file and read its Print Assumptions output.
    Returns dict(obligations, discharged, axioms, failures)."""
    src = os.path.join(COQ, relpath)
    text = open(src).read()
    want = re.findall(r'^Print Assumptions (\w+)\.', text, re.M)
    theorems = re.findall(r'^(?:Theorem|Lemma|Corollary) (\w+)', text, re.M)
    # compile a copy so that the static .vo is not disturbed by concurrent checks
    tmpd = os.path.join(BUILD, 'props-' + hashlib.sha256((relpath + str(os.getpid()) + str(time.time())).encode()).hexdigest()[:12])
    os.makedirs(tmpd, exist_ok=True)
    dst = os.path.join(tmpd, 'P_' + os.path.basename(relpath))
    shutil.copy(src, dst)
    rc, out, err = coqc(dst, extra_q=extra_q)
    shutil.rmtree(tmpd, ignore_errors=True)
    res = {'file': relpath, 'theorems': theorems, 'obligations': len(want), 'discharged': 0, 'axioms': [], 'failures': []}
    bad_kw = re.findall(r'\b(Admitted|admit|Axiom|Parameter|Conjecture|Unset Guard|bypass_check)\b', re.sub(r'\(\*.*?\*\)', '', text, flags=re.S))
    if bad_kw:
        res['failures'].append(f'forbidden keyword(s) in {relpath}: {sorted(set(bad_kw))}')
    if rc != 0:
        res['failures'].append(f'coqc {relpath} failed: ' + (err or out)[-1500:])
        return res
    # split output into one block per Print Assumptions
    blocks = re.split(r'(?=Closed under the global context|Axioms:)', out)
    blocks = [b for b in blocks if b.startswith('Closed under') or b.startswith('Axioms:')]
    if len(blocks) != len(want):
        res['failures'].append(f'expected {len(want)} Print Assumptions blocks, saw {len(blocks)}')
    for name, b in zip(want, blocks):
        if b.startswith('Closed under'):
            res['discharged'] += 1
        else:
            axs = re.findall(r'^([A-Za-z_][\w.]*)\s*:', b, re.M)
            axs = [a for a in axs if a != 'Axioms']
            extra = [a for a in axs if a not in allowed_axioms]
            res['axioms'] += [a for a in axs if a not in res['axioms']]
            if extra:
                res['failures'].append(f'{name} depends on unexpected axioms {extra}')
            else:
                res['discharged'] += 1
    return res

CASE_HEADER = """From BS Require Import {imports}.
From Coq Require Import String.
Open Scope Z_scope.
{prelude}
"""

def _run_shard(args):
    idx, path, extra_q = args
    rc, out, err = coqc(path, extra_q=extra_q, timeout=1200)
    return idx, rc, out, err

def coq_correspondence(tag, imports, checks, prelude='', shard=300, extra_q=()):
    """checks: list of Coq terms of type bool.  Returns (bad_indices, errors, n_evaluated)."""
    if not checks:
        return [], [], 0
    d = os.path.join(BUILD, f'cases-{tag}-{os.getpid()}')
    shutil.rmtree(d, ignore_errors=True)
    os.makedirs(d)
    jobs = []
    for si in range(0, len(checks), shard):
        part = checks[si:si + shard]
        name = f'cases_{si // shard}.v'
        with open(os.path.join(d, name), 'w') as f:
            f.write(CASE_HEADER.format(imports=' '.join(imports), prelude=prelude))
            for j, t in enumerate(part):
                f.write(f'Definition c{si + j} : bool := {t}.\n')
            f.write('Definition checks : list (Z * bool) := [\n')
            f.write(';\n'.join(f'  ({si + j}, c{si + j})' for j in range(len(part))))
            f.write('].\n')
            f.write('Definition bad := map fst (filter (fun p => negb (snd p)) checks).\n')
            f.write('Eval vm_compute in bad.\n')
        jobs.append((si // shard, os.path.join(d, name), tuple(extra_q)))
    bad, errors = [], []
    with concurrent.futures.ThreadPoolExecutor(max_workers=NPROC) as ex:
        for idx, rc, out, err in ex.map(_run_shard, jobs):
            if rc != 0:
                errors.append(f'shard {idx}: ' + (err or out)[-1200:])
                continue
            m = re.search(r'=\s*\[(.*?)\]\s*:\s*list Z', out, re.S)
            if not m:
                errors.append(f'shard {idx}: cannot parse: ' + out[-500:])
                continue
            body = m.group(1).strip()
            if body:
                bad += [int(x) for x in re.findall(r'-?\d+', body)]
    if not errors:
        shutil.rmtree(d, ignore_errors=True)
    return sorted(bad), errors, len(checks)

def coq_eval(imports, term, prelude='', extra_q=()):
    """Evaluate one term with vm_compute and return Coq's printed answer (for replay files)."""
    d = os.path.join(BUILD, f'eval-{os.getpid()}-{random.randrange(1 << 30)}')
    os.makedirs(d, exist_ok=True)
    p = os.path.join(d, 'e.v')
    with open(p, 'w') as f:
        f.write(CASE_HEADER.format(imports=' '.join(imports), prelude=prelude))
        f.write(f'Eval vm_compute in ({term}).\n')
    rc, out, err = coqc(p, extra_q=extra_q, timeout=1500)
    shutil.rmtree(d, ignore_errors=True)
    return (out if rc == 0 else 'ERROR ' + err)[-2000:].strip()

def gen_build(gen_files, bridges, timeout=900, logical='Gen'):
    """Write generated Coq files + bridge obligations into build/gen-<sha of all text>/ and compile them.
    gen_files: list of (module name, text);  bridges: list of (name, text) importing `From Gen Require Import ...`.
    Returns dict(dir, dir_hash, bridge_results=[(name, True | message)])."""
    h = hashlib.sha256()
    for n, t in list(gen_files) + list(bridges):
        h.update(n.encode()); h.update(t.encode())
    h.update(logical.encode())
    for lib in ('KernelLib.v',):      # the bridge tactic lives in the static library: a changed tactic is a different build
        if logical != 'Gen': h.update(open(os.path.join(COQ, lib), 'rb').read())
    dh = h.hexdigest()[:16]
    d = os.path.join(BUILD, 'gen-' + dh)
    results = []
    marker = os.path.join(d, '.done.json')
    if os.path.exists(marker):
        return json.load(open(marker))
    tmpd = d + f'.tmp{os.getpid()}'
    shutil.rmtree(tmpd, ignore_errors=True); os.makedirs(tmpd)
    ok_all = True
    for n, t in gen_files:
        with open(os.path.join(tmpd, n + '.v'), 'w') as f: f.write(t)
        rc, out, err = coqc(os.path.join(tmpd, n + '.v'), extra_q=[(tmpd, logical)], timeout=timeout)
        if rc != 0:
            results.append(('generated file ' + n, 'does not compile: ' + (err or out)[-600:])); ok_all = False
    def _one(nt):
        n, t = nt
        with open(os.path.join(tmpd, n + '.v'), 'w') as f: f.write(t)
        rc, out, err = coqc(os.path.join(tmpd, n + '.v'), extra_q=[(tmpd, logical)], timeout=timeout)
        bad = re.findall(r'\b(Admitted|admit|Axiom|Parameter|Conjecture)\b', t)
        if rc != 0: return (n, 'bridge obligation fails: ' + (err or out)[-800:])
        if bad: return (n, f'forbidden keyword {bad}')
        if 'Axioms:' in out: return (n, 'depends on axioms: ' + out[-400:])
        return (n, True)
    with concurrent.futures.ThreadPoolExecutor(max_workers=NPROC) as ex:
        results += list(ex.map(_one, bridges))
    info = {'dir': d, 'dir_hash': dh, 'bridge_results': results}
    # move into place (content addressed, so a concurrent identical build is equivalent)
    if os.path.exists(d): shutil.rmtree(tmpd, ignore_errors=True)
    else:
        try: os.rename(tmpd, d)
        except OSError: shutil.rmtree(tmpd, ignore_errors=True)
    # the compiled files refer to the logical path only, so the rename is harmless; but .vo files record nothing about the directory
    if all(r[1] is True for r in results) and os.path.isdir(d):
        with open(marker, 'w') as f: json.dump(info, f)
    return info

# --------------------------------------------------------------------------------------------
# kernel tie: translated source = hand model (tools/gen/kernels.py)
# --------------------------------------------------------------------------------------------
def kernel_tie(pid):
    """Translate the kernels this property's model mirrors from /repo's working tree, prove the bridge obligations, and for every
    bridge that no longer proves evaluate both sides on the exhaustive small domain.
    -> dict(dir, proved=[...], unproved=[(name, why)], untranslatable=[(name, why)], diverging={name: [decoded argument dicts]})"""
    from gen import kernels
    text, bridges, info = kernels.emit(REPO, pid)
    res = {'dir': None, 'proved': [], 'unproved': [], 'untranslatable': info['failed'], 'diverging': {}, 'translated': info['translated']}
    if not bridges:
        return res
    bridges = [(n, t.replace('From Gen Require', 'From GenK Require')) for n, t in bridges]
    b = gen_build([('GenKernels', text)], bridges, timeout=1200, logical='GenK')
    res['dir'] = b['dir']
    failed_gen = [r for r in b['bridge_results'] if r[0].startswith('generated file')]
    for name, r in b['bridge_results']:
        if name.startswith('generated file'): continue
        (res['proved'] if r is True else res['unproved']).append(name if r is True else (name, str(r)[-300:]))
    if failed_gen:
        res['unproved'] += [(n, 'generated definitions do not compile: ' + str(r)[-300:]) for n, r in failed_gen]
        return res
    if res['unproved'] and os.path.isdir(b['dir']) is False:
        # a failed build is not kept under its content address: rebuild the generated file alone for the search
        b2 = gen_build([('GenKernels', text)], [], timeout=1200, logical='GenK'); res['dir'] = b2['dir']
    specs = {k['name']: k for k in kernels.KERNELS}
    for name, why in list(res['unproved']):
        spec = specs.get(name)
        if spec is None or not res['dir'] or not os.path.isdir(res['dir']): continue
        try:
            stext, decode = kernels.search_text(spec)
        except kernels.Untranslatable:
            continue
        d = os.path.join(BUILD, f'ksearch-{os.getpid()}-{name}')
        os.makedirs(d, exist_ok=True)
        p = os.path.join(d, 'S.v')
        open(p, 'w').write(stext)
        rc, out, err = coqc(p, extra_q=[(res['dir'], 'GenK')], timeout=1200)
        shutil.rmtree(d, ignore_errors=True)
        if rc == 0:
            res['diverging'][name] = kernels.parse_search_output(out, decode, 0) or []
        else:
            res['diverging'][name] = []
            res['unproved'].append((name + ':search', (err or out)[-300:]))
    return res

# --------------------------------------------------------------------------------------------
# known findings
# --------------------------------------------------------------------------------------------
def load_known(pid):
    p = os.path.join(VERIF, 'known_findings.json')
    if not os.path.exists(p): return []
    data = json.load(open(p))
    return [k for k in data.get('findings', []) if k.get('property') == pid and k.get('status', 'open') == 'open']

# --------------------------------------------------------------------------------------------
# the generic driver
# --------------------------------------------------------------------------------------------
class Outcome:
    def __init__(self, pid, tier, seed):
        self.pid, self.tier, self.seed = pid, tier, seed
        self.t0 = time.time()
        self.violations = []       # (what, replay_path, found_input: bool)
        self.known_lines = []
        self.log = {}
        self.coverage = {}
        self.assumptions = []

    def replay_path(self, n):
        os.makedirs(REPLAYS, exist_ok=True)
        return os.path.join(REPLAYS, f'{self.pid}_{self.tier}_{self.seed}_{n}.json')

    def add_violation(self, what, payload, found_input=True):
        path = self.replay_path(len(self.violations))
        payload = dict(payload)
        payload.update({'property': self.pid, 'what': what, 'seed': self.seed, 'tier': self.tier,
                        'found_input': found_input})
        with open(path, 'w') as f:
            json.dump(payload, f, indent=1, default=str)
        self.violations.append((what, path, found_input))

    def finish(self, level='proof'):
        ev = {
            'property_id': self.pid, 'tier': self.tier, 'seed': self.seed, 'level': level,
            'coverage': self.coverage, 'assumptions': self.assumptions,
            'wall_s': round(time.time() - self.t0, 2), 'violations': len(self.violations),
            'known_findings_reported': self.known_lines, 'log': self.log,
        }
        os.makedirs(EVID, exist_ok=True)
        tmp = os.path.join(EVID, f'.{self.pid}.json.{os.getpid()}')
        with open(tmp, 'w') as f:
            json.dump(ev, f, indent=1, default=str)
        os.replace(tmp, os.path.join(EVID, f'{self.pid}.json'))
        for line in self.known_lines:
            print(line)
        for what, path, found in self.violations:
            print('DETAIL: ' + what.replace('\n', ' ')[:1500])
            if found:
                print(f'VIOLATION property={self.pid} replay={path}')
            else:
                print(f'VIOLATION property={self.pid} replay={path} no-failing-input-found')
        if self.violations:
            return 1
        print(f'OK property={self.pid} tier={self.tier} seed={self.seed} '
              f'obligations={self.coverage.get("obligations")} discharged={self.coverage.get("discharged")} '
              f'evaluations={self.coverage.get("evaluations")} wall={ev["wall_s"]}s')
        return 0


def drive(mod, tier, seed, replay=None):
    """Generic check: proofs + bridges + correspondence + oracle + verdict."""
    pid = mod.ID
    out = Outcome(pid, tier, seed)
    rng = random.Random(f'{pid}-{seed}')
    os.makedirs(BUILD, exist_ok=True)
    sys.path.insert(0, REPO)
    import bitstring  # noqa  (the working tree)
    assert os.path.realpath(bitstring.__file__).startswith(os.path.realpath(REPO)), bitstring.__file__

    broken = []   # names of proof obligations / bridges / correspondence batches that no longer check

    # 1. static theories + this property's theorems (re-checked, Print Assumptions read)
    ok = ensure_static_build(out.log)
    if not ok:
        broken.append('static Coq build (make in coq/) fails: ' + out.log.get('static_build_error', '')[-400:])
    obligations = discharged = 0
    axioms = []
    theorems = []
    extra_q = []
    # 2. generated files + bridge obligations
    gen_info = {}
    if hasattr(mod, 'generate'):
        try:
            gen_info = mod.generate(out)     # returns dict(dir=..., bridges=[(name, path)], functions=[...])
        except Exception as e:  # translator is fail-closed: any failure is a broken obligation
            broken.append(f'translator failed (fail-closed): {type(e).__name__}: {e}')
            gen_info = {}
        if gen_info.get('dir'):
            extra_q.append((gen_info['dir'], 'Gen'))
        for name, res in gen_info.get('bridge_results', []):
            obligations += 1
            if res is True:
                discharged += 1
            else:
                broken.append(f'bridge obligation {name}: {res}')
    # 2b. kernel tie: the Python source of the kernels this model mirrors, translated and bridged to the hand model
    ktie = {}
    kernel_cases = []
    if ok and os.environ.get('VERIF_NO_KERNELS') != '1':
        try:
            ktie = kernel_tie(pid)
        except Exception as e:
            ktie = {'error': f'{type(e).__name__}: {e}', 'proved': [], 'unproved': [('kernel tie', str(e))], 'untranslatable': [], 'diverging': {}}
        obligations += len(ktie.get('proved', [])) + len({n for n, _ in ktie.get('unproved', []) if ':' not in n and n != 'kernel tie'})
        discharged += len(ktie.get('proved', []))
        if hasattr(mod, 'kernel_cases'):
            for name, argsl in ktie.get('diverging', {}).items():
                for a in argsl[:40]:
                    try:
                        for c in mod.kernel_cases(name, a) or []:
                            c = dict(c); c['_kernel'] = name; kernel_cases.append(c)
                    except Exception:
                        pass
    out.log['kernel_tie'] = {k: (v if k != 'diverging' else {n: x[:5] for n, x in v.items()}) for k, v in ktie.items() if k != 'dir'}
    if ok:
        for rel in mod.COQ_PROPS:
            r = check_props_file(rel, getattr(mod, 'ALLOWED_AXIOMS', ()), extra_q=extra_q)
            obligations += r['obligations']; discharged += r['discharged']
            axioms += [a for a in r['axioms'] if a not in axioms]
            theorems += r['theorems']
            for f in r['failures']:
                broken.append(f'theorem file {rel}: {f}')
    out.log['generated'] = {k: v for k, v in gen_info.items() if k in ('functions', 'data', 'dir_hash')}

    # 3. cases: known-finding witnesses first, then the corpus, then generated
    known = load_known(pid)
    cases = []
    for k in known:
        for w in k.get('witnesses', []):
            c = dict(w); c['_kf'] = k['id']; cases.append(c)
    if replay:
        rp = json.load(open(replay))
        cases = [rp['case']] if 'case' in rp else []
    else:
        cases += kernel_cases            # arguments on which the translated source and the hand model differ (when a bridge no longer proves)
        cases += list(mod.gen_cases(rng, tier))
    # 3b. change-triggered escalation: the source of a function this property's model mirrors differs from the pinned tree the
    #     model was validated against -> also run (a bounded part of) the thorough-tier generators through the whole pipeline.
    changed = []
    try:
        from gen import sources as _sources
        changed = _sources.changed_functions(REPO, pid)
    except Exception as e:
        out.log['pins_error'] = f'{type(e).__name__}: {e}'
    if ktie.get('unproved') or ktie.get('untranslatable'):
        # a kernel bridge that no longer proves forces the escalation as well (the digests say the same, this is the semantic version)
        changed = changed + [f'kernel:{n}' for n, _ in ktie.get('unproved', []) + ktie.get('untranslatable', []) if f'kernel:{n}' not in changed]
    if os.environ.get('VERIF_FORCE_ESCALATE') == '1' and not changed:
        changed = ['(forced by VERIF_FORCE_ESCALATE)']      # self-test of the escalated generators on the unchanged tree
    out.log['changed_modelled_functions'] = changed[:40]
    escalated = 0
    if changed and tier == 'quick' and not replay and os.environ.get('VERIF_NO_ESCALATE') != '1':
        import itertools
        cap = int(os.environ.get('VERIF_ESCALATE_CASES', str(max(1500, 4 * len(cases)))))
        skip = getattr(mod, 'ESCALATE_SKIP_OPS', ())
        rng2 = random.Random(f'{pid}-{seed}-escalated')
        extra = []
        try:
            # a uniform sample (reservoir) over all phases of the thorough generator, generation itself bounded in time
            tg = time.time(); pick = random.Random(f'{pid}-{seed}-reservoir'); res = []
            for gi, c in enumerate(mod.gen_cases(rng2, 'thorough')):
                if c.get('op') in skip: continue
                if len(res) < cap: res.append((gi, c))
                else:
                    j = pick.randrange(gi + 1)
                    if j < cap: res[j] = (gi, c)
                if gi % 512 == 0 and time.time() - tg > 45: break
            extra = [c for _, c in sorted(res, key=lambda t: t[0])]
        except Exception as e:
            out.log['escalation_error'] = f'{type(e).__name__}: {e}'
        cases += extra
        escalated = len(extra)
    out.log['escalated_cases'] = escalated
    # 4. run the implementation, the oracle
    hist = {}
    observed = []
    t1 = time.time()
    budget = float(os.environ.get('VERIF_ESCALATE_SECONDS', '240'))
    n_base = len(cases) - escalated
    for ci, c in enumerate(cases):
        if escalated and ci >= n_base and time.time() - t1 > budget:
            del cases[ci:]          # out of time: the remaining escalated cases are dropped (recorded below)
            out.log['escalation_truncated_at'] = ci - n_base
            break
        try:
            obs = mod.run_impl(c)
        except Exception as e:      # the runner itself failed on this tree (e.g. an internal it inspects has changed shape): an observation like any other
            obs = ('err', 'Other:harness:' + type(e).__name__ + ':' + str(e)[:80])
        finally:
            reset_options()
        observed.append(obs)
        k = mod.kind(c) if hasattr(mod, 'kind') else c.get('op', '?')
        hist[k] = hist.get(k, 0) + 1
    out.log['impl_s'] = round(time.time() - t1, 1)
    fails = []          # (index, message)
    nontriv = set()
    for i, (c, obs) in enumerate(zip(cases, observed)):
        try:
            msg = mod.oracle(c, obs)
        except Exception as e:      # an oracle that cannot judge an observation must not pass silently, nor stop the check
            msg = f'the oracle could not judge the observation {str(obs)[:200]} of case {str(c)[:200]}: {type(e).__name__}: {e}'
        if msg:
            fails.append((i, msg))
        try: nt = mod.nontrivial(c, obs)
        except Exception: nt = False
        if nt:
            nontriv.add(json.dumps([c.get(k) for k in sorted(c) if not k.startswith('_')], sort_keys=True, default=str))
    # 5. correspondence: model vs implementation
    terms, term_idx = [], []
    esc_skipped = 0
    for i, (c, obs) in enumerate(zip(cases, observed)):
        try:
            t = mod.coq_check(c, obs)
        except Exception as e:      # the observation cannot even be rendered for the model (its shape changed): model and implementation differ here
            t = 'false'
            out.log.setdefault('unrenderable_observations', []).append(f'{type(e).__name__}: {str(e)[:120]} for case {str(c)[:160]}')
        if t is not None:
            if escalated and i >= n_base and len(t) > 3000:
                esc_skipped += 1; continue        # escalated cases on long data: implementation + oracle only (the model evaluation is quadratic)
            terms.append(t); term_idx.append(i)
    out.log['escalated_without_model_evaluation'] = esc_skipped
    t2 = time.time()
    bad, errors, nev = ([], [], 0)
    if ok:
        bad, errors, nev = coq_correspondence(pid, mod.COQ_IMPORTS, terms, prelude=getattr(mod, 'COQ_PRELUDE', ''), extra_q=extra_q)
    out.log['coq_cases_s'] = round(time.time() - t2, 1)
    for e in errors:
        broken.append('correspondence evaluation error: ' + e[-600:])
    diverging = [term_idx[b] for b in bad]

    # 6. verdict
    known_by_id = {k['id']: k for k in known}
    reported_known = set()
    fail_idx = set()
    for i, msg in fails:
        c = cases[i]
        key = mod.classify(c, observed[i]) if hasattr(mod, 'classify') else None
        kf = None
        for k in known:
            if key is not None and key == k.get('key'):
                kf = k; break
        if kf is not None:
            # a known finding is only "known" while the implementation still behaves like the
            # faithful (defect-preserving) model: a divergence from the model is a new violation
            if i in diverging:
                kf = None
        if kf is not None:
            if kf['id'] not in reported_known:
                reported_known.add(kf['id'])
                out.known_lines.append(f"KNOWN-FINDING: property={pid} {kf['id']} {kf['what']}")
            continue
        fail_idx.add(i)
        if len(out.violations) < 5:
            out.add_violation(msg, {'case': c, 'observed': observed[i]}, True)
    # a divergence between model and implementation without an oracle failure: search, else report
    div_only = [i for i in diverging if i not in fail_idx and not (
        any(i == j for j, _ in fails))]
    if div_only:
        # try harder around the diverging cases before giving up
        found = False
        if hasattr(mod, 'search'):
            hit = mod.search([cases[i] for i in div_only[:20]], rng)
            if hit:
                found = True
                c, obs, msg = hit
                out.add_violation(msg, {'case': c, 'observed': obs, 'from': 'search after model/implementation divergence'}, True)
        if not found:
            i = div_only[0]
            modelval = None
            if hasattr(mod, 'coq_model_term'):
                try: modelval = coq_eval(mod.COQ_IMPORTS, mod.coq_model_term(cases[i]), prelude=getattr(mod, 'COQ_PRELUDE', ''), extra_q=extra_q)
                except Exception as e: modelval = f'(eval failed: {e})'
            broken.append(f'correspondence {pid}: model and implementation differ on {len(div_only)} case(s), e.g. {json.dumps(cases[i], default=str)[:300]} impl={json.dumps(observed[i], default=str)[:200]} model={modelval}')
    if broken and not out.violations:
        # proof or tie broken, no concrete failing input yet: budgeted search
        hit = None
        if hasattr(mod, 'search'):
            try: hit = mod.search([], rng)
            except Exception: hit = None
        if hit:
            c, obs, msg = hit
            out.add_violation(msg + ' (found by search after: ' + broken[0][:200] + ')', {'case': c, 'observed': obs, 'broken': broken}, True)
        else:
            # name what no longer checks; keep the diverging cases (full) so that the divergence itself replays
            def _term(i):
                try: return mod.coq_check(cases[i], observed[i])
                except Exception as e: return f'(not renderable: {type(e).__name__}: {e})'
            div_payload = [{'case': cases[i], 'observed': observed[i], 'model_term': _term(i)} for i in diverging[:5]]
            out.add_violation('; '.join(b[:300] for b in broken[:3]), {'broken': broken, 'diverging_cases': div_payload}, False)

    samples = []
    for c, o in list(zip(cases, observed))[:3] + list(zip(cases, observed))[-3:]:
        samples.append({'case': {k: v for k, v in c.items()}, 'observed': o})
    out.coverage = {
        'obligations': obligations, 'discharged': discharged if not broken else min(discharged, obligations - 1) if obligations else 0,
        'checker_cmd': f'make -C {COQ} && coqc -Q {COQ} BS ' + ' '.join(mod.COQ_PROPS) + ' (Print Assumptions parsed); cases_*.v with Eval vm_compute for the correspondence',
        'trusted_base': getattr(mod, 'TRUSTED_BASE', []) + COMMON_TRUSTED,
        'theorems': theorems, 'axioms_seen': axioms,
        'evaluations': (mod.evals(cases, observed) if hasattr(mod, 'evals') else len(cases)), 'distinct_nontrivial': (mod.evals(cases, observed) if hasattr(mod, 'evals') else len(nontriv)),
        'rule': getattr(mod, 'RULE', ''), 'samples': samples,
        'model_vs_impl_cases': nev, 'model_vs_impl_diverging': len(diverging),
        'oracle_failures': len(fails), 'known_finding_hits': len(fails) - len(fail_idx),
        'input_histogram': hist, 'broken': broken,
        'changed_modelled_functions': changed[:40], 'escalated_cases': escalated,
        'kernel_bridges': {'proved': ktie.get('proved', []), 'unproved': [n for n, _ in ktie.get('unproved', [])], 'untranslatable': [n for n, _ in ktie.get('untranslatable', [])],
                           'diverging_inputs_replayed': len(kernel_cases)},
    }
    out.assumptions = getattr(mod, 'ASSUMPTIONS', [])
    return out.finish('proof')


COMMON_TRUSTED = [
    'Coq 8.16.1 kernel and vm_compute (no native_compute)',
    'hand-written Gallina model mirrors the Python (tied by correspondence on every run)',
    'Prims.v models of bitarray 3.11 / CPython slicing, int<->bits (L0-tested every run)',
    'tools/vlib.py harness, Coq term printers, per-property generators and oracles (Python)',
]
